// Demonstrations, through the public API only, of the defects that the static rules of
// /verif report on the pinned tree (DESIGN.md §6). Each test FAILS on the pinned tree and
// PASSES once the corresponding "fix:" commit is applied. They are documentation of the
// findings, not part of any check (checks never execute roaring code).
package demos

import (
	"bytes"
	"math/big"
	"runtime"
	"testing"
	"time"

	"github.com/RoaringBitmap/roaring/v2"
	bsi32 "github.com/RoaringBitmap/roaring/v2/BitSliceIndexing"
	"github.com/RoaringBitmap/roaring/v2/roaring64"
)

func rangeBM(a, b uint64) *roaring.Bitmap { x := roaring.New(); x.AddRange(a, b); return x }

// #1 C10: MustReadFrom must return ReadFrom's count and error.
func TestD01_MustReadFromDropsError(t *testing.T) {
	bm := roaring.BitmapOf(1, 2, 3, 100000)
	buf, _ := bm.ToBytes()
	defer func() { recover() }()
	n, err := roaring.New().MustReadFrom(bytes.NewReader(buf[:5]))
	if err == nil {
		t.Fatalf("MustReadFrom on a 5-byte prefix returned (%d, nil)", n)
	}
}

func TestD01b_MustReadFromCount(t *testing.T) {
	bm := roaring.BitmapOf(1, 2, 3, 100000)
	buf, _ := bm.ToBytes()
	n, err := roaring.New().MustReadFrom(bytes.NewReader(buf))
	if err != nil || n != int64(len(buf)) {
		t.Fatalf("MustReadFrom returned (%d,%v), want (%d,nil)", n, err, len(buf))
	}
}

// #2 C07/C01: in-place Xor of an array (or run) chunk with a bitmap chunk must not change the argument.
func TestD02_IxorMutatesArgument(t *testing.T) {
	a := roaring.BitmapOf(1, 2, 3) // array chunk
	b := rangeBM(0, 10000)
	for i := uint32(0); i < 10000; i += 2 { // bitmap chunk (5000 values, not run-compressible)
		b.Remove(i)
	}
	want := b.Clone()
	a.Xor(b)
	if !b.Equals(want) {
		t.Fatalf("a.Xor(b) changed b: card %d -> %d", want.GetCardinality(), b.GetCardinality())
	}
	r := rangeBM(0, 100)
	r.RunOptimize() // run chunk
	r.Xor(b)
	if !b.Equals(want) {
		t.Fatalf("run.Xor(bitmap) changed the argument")
	}
}

// #3 C07/C11: HeapOr/HeapXor of one bitmap must return an independent bitmap.
func TestD03_HeapSingleton(t *testing.T) {
	a := roaring.BitmapOf(1, 2, 3)
	r := roaring.HeapOr(a)
	r.Add(99)
	if a.Contains(99) {
		t.Fatalf("HeapOr(a) returned a itself")
	}
	r2 := roaring.HeapXor(a)
	r2.Add(77)
	if a.Contains(77) {
		t.Fatalf("HeapXor(a) returned a itself")
	}
}

// #4 C07: ParHeapOr passes a container that exists in one input only to the result un-cloned.
func TestD04_ParHeapOrPassthrough(t *testing.T) {
	a := roaring.BitmapOf(1, 2, 3)
	b := roaring.BitmapOf(1<<16 + 5)
	r := roaring.ParHeapOr(2, a, b)
	r.Add(4)
	if a.Contains(4) {
		t.Fatalf("mutating ParHeapOr's result changed an input")
	}
}

// #5 C07: ParOr (lazyIOrOnRange) shares a third input's container with the result.
func TestD05_ParOrSharesInput(t *testing.T) {
	a := roaring.BitmapOf(1<<16 + 1)
	b := roaring.BitmapOf(7 << 16)
	c := roaring.BitmapOf(7)
	r := roaring.ParOr(1, a, b, c) // 4 chunks of 2 keys: chunk [0,1] merges a's key 1, then c's key 0 is inserted before it
	c.Add(8)
	if r.Contains(8) {
		t.Fatalf("mutating an input after ParOr changed the result")
	}
}

// #6 C07: ParOr must not reorder the caller's slice.
func TestD06_ParOrWritesCallerSlice(t *testing.T) {
	e := roaring.New()
	a := roaring.BitmapOf(1)
	b := roaring.BitmapOf(1 << 17)
	in := []*roaring.Bitmap{e, a, b}
	roaring.ParOr(2, in...)
	if in[0] != e || in[1] != a || in[2] != b {
		t.Fatalf("ParOr permuted the caller's slice")
	}
	e64, a64, b64 := roaring64.New(), roaring64.BitmapOf(1), roaring64.BitmapOf(1<<40)
	in64 := []*roaring64.Bitmap{e64, a64, b64}
	roaring64.ParOr(2, in64...)
	if in64[0] != e64 || in64[1] != a64 || in64[2] != b64 {
		t.Fatalf("roaring64.ParOr permuted the caller's slice")
	}
}

// #7 C07/C17: roaring64.ParOr of one bitmap returns it; iorOnRange shares buckets.
func TestD07_ParOr64(t *testing.T) {
	a := roaring64.BitmapOf(1, 2)
	r := roaring64.ParOr(2, a)
	r.Add(99)
	if a.Contains(99) {
		t.Fatalf("roaring64.ParOr(a) returned a itself")
	}
	x := roaring64.BitmapOf(1<<32 + 1)
	y := roaring64.BitmapOf(7 << 32)
	z := roaring64.BitmapOf(7)
	r = roaring64.ParOr(1, x, y, z)
	z.Add(8)
	if r.Contains(8) {
		t.Fatalf("mutating an input after roaring64.ParOr changed the result")
	}
}

// #8 C07/C17: roaring64 in-place Xor inserts the argument's bucket itself.
func TestD08_Xor64AliasesArg(t *testing.T) {
	a := roaring64.BitmapOf(5<<32 + 1)
	b := roaring64.BitmapOf(1<<32 + 1)
	a.Xor(b)
	a.Add(1<<32 + 2)
	if b.Contains(1<<32 + 2) {
		t.Fatalf("a.Xor(b); a.Add(..) changed b")
	}
}

// #9 C17: roaring64.Flip(static) must not panic when the flipped bucket is absent.
func TestD09_Flip64(t *testing.T) {
	a := roaring64.New()
	a.AddRange(10, 1<<32) // bucket 0 = [10, 2^32): flipping it empties the bucket
	defer func() {
		if r := recover(); r != nil {
			t.Fatalf("roaring64.Flip panicked: %v", r)
		}
	}()
	roaring64.Flip(a, 10, 1<<32+5)
}

// #10 C08: a frozen view must never write the caller's buffer.
func TestD10_FrozenViewWritesBuffer(t *testing.T) {
	bm := roaring.BitmapOf(1, 1<<16+1, 2<<16+1)
	buf, err := bm.Freeze()
	if err != nil {
		t.Skip(err)
	}
	orig := append([]byte(nil), buf...)
	v := roaring.New()
	if err := v.FrozenView(buf); err != nil {
		t.Skip(err)
	}
	v.Remove(1)
	v.Remove(1<<16 + 1)
	if !bytes.Equal(orig, buf) {
		t.Fatalf("mutating a FrozenView bitmap rewrote the caller's buffer")
	}
}

// #11 C10: a run that wraps past 65535 must not validate.
func TestD11_RunWrapValidates(t *testing.T) {
	// portable format, run cookie, 1 container, key 0, one run (start 60000, length-1 10000)
	b := []byte{0x3B, 0x30, 0x00, 0x00, 0x01, 0x00, 0x00, 0x10, 0x27, 0x01, 0x00, 0x60, 0xEA, 0x10, 0x27}
	bm := roaring.New()
	if _, err := bm.FromUnsafeBytes(b); err != nil {
		return // rejected by the decoder: fine
	}
	if bm.Validate() == nil {
		arr := bm.ToArray()
		t.Fatalf("wrapping run validates; ToArray yields %d values, last=%d", len(arr), arr[len(arr)-1])
	}
}

// #13 C09/C14: library-made bitmaps must validate (run chunks are re-minimised).
func TestD13_RunNotMinimised(t *testing.T) {
	check := func(name string, b *roaring.Bitmap) {
		if err := b.Validate(); err != nil {
			t.Errorf("%s: Validate() = %v", name, err)
		}
	}
	mk := func() *roaring.Bitmap { x := rangeBM(0, 3000); x.RunOptimize(); return x }
	a := mk()
	for i := uint64(4000); i < 16000; i += 2 {
		a.AddRange(i, i+1)
	}
	check("AddRange singletons on a run chunk", a)
	r := rangeBM(0, 65536)
	r.RunOptimize()
	for i := uint64(1); i < 12000; i += 2 {
		r.RemoveRange(i, i+1)
	}
	check("RemoveRange singletons on a run chunk", r)
	x, y := roaring.New(), roaring.New()
	for k := uint64(0); k < 1100; k++ {
		x.AddRange(8*k, 8*k+3)
		y.AddRange(8*k+4, 8*k+7)
	}
	x.RunOptimize()
	y.RunOptimize()
	check("x", x)
	check("y", y)
	check("Or(run,run)", roaring.Or(x, y))
	check("FastOr(run,run)", roaring.FastOr(x, y))
	w := rangeBM(0, 65536)
	for i := uint32(0); i < 65536; i += 40 {
		w.Remove(i)
	}
	w.RunOptimize()
	check("w", w)
	check("Flip(run)", roaring.Flip(w, 0, 65536))
	z := rangeBM(0, 10000)
	for i := uint64(62536); i < 65536; i += 2 {
		z.AddRange(i, i+1)
	}
	z.RunOptimize()
	check("z", z)
	check("AddOffset(run)", roaring.AddOffset64(z, 3000))
}

// #14 C19: Clone/NewBSIRetainSet must carry the sign plane.
func TestD14_BSICloneSign(t *testing.T) {
	b := roaring64.NewDefaultBSI()
	b.SetValue(1, -5)
	b.SetValue(2, 7)
	c := b.Clone()
	if v, _ := c.GetValue(1); v != -5 {
		t.Fatalf("Clone: value of column 1 = %d, want -5", v)
	}
}

// #17 C07: ParOr result keeps, with its shared flag cleared, a full run container that is shared with an input.
func TestD17_ParOrFullRunShared(t *testing.T) {
	a := rangeBM(1<<16, 2<<16) // key 1: full chunk
	a.RunOptimize()
	a.SetCopyOnWrite(true)
	a2 := a.Clone() // now a's chunk is flagged shared
	_ = a2
	b := roaring.BitmapOf(5 << 16)
	c := roaring.BitmapOf(1<<16 + 3)
	r := roaring.ParOr(2, a, b, c)
	r.Remove(1<<16 + 9)
	if !a.Contains(1<<16+9) || !a2.Contains(1<<16+9) {
		t.Fatalf("mutating ParOr's result changed an input")
	}
}

// #16a C15: NextAbsentValue when an array chunk is full up to its upper edge (65535).
func TestD16_NextAbsentValueArrayEdge(t *testing.T) {
	b := roaring.BitmapOf(65533, 65534, 65535, 2<<16|7) // a later chunk exists, so the driver walks on
	if got := b.NextAbsentValue(65534); got != 65536 {
		t.Fatalf("NextAbsentValue(65534) = %d, want 65536", got)
	}
}

// #18 C09/C16: AddOffset of a bitmap chunk must not leave bitmap containers with <= 4096 values.
func TestD18_AddOffsetBitmapSplit(t *testing.T) {
	b := roaring.New()
	for i := uint32(0); i < 65536; i += 13 { // 5042 values: a bitmap container
		b.Add(i)
	}
	r := roaring.AddOffset64(b, 30000)
	if err := r.Validate(); err != nil {
		t.Fatalf("AddOffset64 result does not validate: %v", err)
	}
	if _, err := r.ToBytes(); err != nil {
		t.Fatalf("AddOffset64 result cannot be serialized: %v", err)
	}
}

// #15 C18: a corrupted bucket count must not make the 64-bit decoders allocate from it.
func TestD15_Roaring64HugeCount(t *testing.T) {
	b := roaring64.BitmapOf(1, 2, 1<<40)
	buf, _ := b.ToBytes()
	bad := append([]byte(nil), buf...)
	bad[5] = 0x10 // bucket count becomes 2 + 2^44
	defer func() {
		if r := recover(); r != nil {
			t.Fatalf("decoder panicked on a corrupted bucket count: %v", r)
		}
	}()
	if _, err := roaring64.New().FromUnsafeBytes(bad); err == nil {
		t.Fatalf("FromUnsafeBytes accepted a stream whose bucket count exceeds its content")
	}
	if _, err := roaring64.New().ReadFrom(bytes.NewReader(bad)); err == nil {
		t.Fatalf("ReadFrom accepted a stream whose bucket count exceeds its content")
	}
	ok := roaring64.New()
	if _, err := ok.ReadFrom(bytes.NewReader(buf)); err != nil || !ok.Equals(b) {
		t.Fatalf("round trip broken: %v", err)
	}
}

// Known finding (not repaired), C09/C10/C13: a bitmap container of exactly 4096 values passes
// Validate() but the portable writer refuses it. Expected to FAIL on the current tree.
func TestK12_Bitmap4096ValidatesButCannotBeWritten(t *testing.T) {
	buf := make([]byte, 8192+2+2+1+4)
	for i := 0; i < 4096/8; i++ {
		buf[i] = 0xff // 4096 low bits set
	}
	off := 8192
	buf[off], buf[off+1] = 0, 0 // key 0
	off += 2
	buf[off], buf[off+1] = byte(4095&0xff), byte(4095>>8) // cardinality-1
	off += 2
	buf[off] = 1 // bitmap
	off++
	hdr := uint32(13766) | uint32(1)<<15
	buf[off], buf[off+1], buf[off+2], buf[off+3] = byte(hdr), byte(hdr>>8), byte(hdr>>16), byte(hdr>>24)
	bm := roaring.New()
	if err := bm.FrozenView(buf); err != nil {
		t.Skipf("frozen view rejected the input: %v", err)
	}
	if err := bm.Validate(); err != nil {
		return // validator rejects it: finding repaired
	}
	if _, err := bm.ToBytes(); err != nil {
		t.Fatalf("Validate()==nil but ToBytes fails: %v", err)
	}
}

// Known finding (not repaired), C19: MarshalBinary of the 64-bit BSI omits the sign plane.
// Expected to FAIL on the current tree.
func TestK14_BSIMarshalDropsSign(t *testing.T) {
	b := roaring64.NewDefaultBSI()
	b.SetValue(1, -5)
	b.SetValue(2, 7)
	data, err := b.MarshalBinary()
	if err != nil {
		t.Fatal(err)
	}
	c := roaring64.NewDefaultBSI()
	if err := c.UnmarshalBinary(data); err != nil {
		t.Fatal(err)
	}
	if v, ok := c.GetValue(1); !ok || v != -5 {
		t.Fatalf("after MarshalBinary/UnmarshalBinary column 1 holds %d (exists=%v), want -5", v, ok)
	}
}

// #19 C09/C05: AndAny on a full run chunk with array filters whose cardinalities add up to more than
// 4096 but whose union is smaller stored a bitmap container below the array threshold.
func TestD19_AndAnyFullRunScratchBitmap(t *testing.T) {
	x := roaring.New()
	x.AddRange(0, 65536)
	x.RunOptimize()
	f1, f2 := roaring.New(), roaring.New()
	for v := uint32(0); v < 6000; v += 2 {
		f1.Add(v)
		f2.Add(v)
	}
	x.AndAny(f1, f2)
	if !x.Equals(f1) {
		t.Fatalf("AndAny result differs from the fold")
	}
	if err := x.Validate(); err != nil {
		t.Fatalf("AndAny result does not validate: %v", err)
	}
	if _, err := x.ToBytes(); err != nil {
		t.Fatalf("AndAny result cannot be serialized: %v", err)
	}
}

// #20 C08/C13: frozenView keeps its container table (interface values, i.e. pointers) in memory that was
// allocated as []byte, which the garbage collector does not scan. A container cloned by copy-on-write
// after a mutation is then referenced only from that memory and may be collected while in use.
func TestD20_FrozenViewTableInvisibleToGC(t *testing.T) {
	src := roaring.New()
	for k := uint32(0); k < 64; k++ {
		for v := uint32(0); v < 3000; v += 3 {
			src.Add(k<<16 | v)
		}
	}
	buf, err := src.Freeze()
	if err != nil {
		t.Fatal(err)
	}
	view := roaring.New()
	if err := view.FrozenView(buf); err != nil {
		t.Fatal(err)
	}
	want := src.Clone()
	// one mutation per chunk: every container is replaced by a private clone
	for k := uint32(0); k < 64; k++ {
		view.Add(k<<16 | 1)
		want.Add(k<<16 | 1)
	}
	// let the collector run and reuse whatever it freed: small pointerful objects of the size of a
	// container header, and slices of the size of the cloned payloads
	type hdr struct {
		p    *uint16
		a, b int
	}
	var sink []*hdr
	var sink2 [][]uint16
	for round := 0; round < 30; round++ {
		runtime.GC()
		for i := 0; i < 20000; i++ {
			sink = append(sink, &hdr{a: 7, b: 7})
		}
		for i := 0; i < 500; i++ {
			g := make([]uint16, 1001)
			for j := range g {
				g[j] = 0xffff
			}
			sink2 = append(sink2, g)
		}
		if len(sink) > 100000 {
			sink, sink2 = sink[:0], sink2[:0]
		}
		if !view.Equals(want) {
			t.Fatalf("frozen view changed after garbage collection (round %d): cardinality %d, want %d", round, view.GetCardinality(), want.GetCardinality())
		}
	}
	runtime.KeepAlive(sink2)
	runtime.KeepAlive(sink)
	if !view.Equals(want) {
		t.Fatalf("frozen view changed after garbage collection: cardinality %d, want %d", view.GetCardinality(), want.GetCardinality())
	}
	runtime.KeepAlive(buf)
}

// #21 C17/C18: Roaring32AsRoaring64 of an empty 32-bit bitmap stored an empty bucket: IsEmpty() was false
// with cardinality 0, Validate failed, Maximum panicked.
func TestD21_Roaring32AsRoaring64Empty(t *testing.T) {
	b := roaring64.Roaring32AsRoaring64(roaring.New())
	if !b.IsEmpty() {
		t.Fatalf("IsEmpty() = false for a bitmap of cardinality %d", b.GetCardinality())
	}
	if err := b.Validate(); err != nil {
		t.Fatalf("does not validate: %v", err)
	}
	if !b.Equals(roaring64.New()) {
		t.Fatalf("not Equal to the empty bitmap")
	}
}

// #22 C11/C12/C17: ParOr splits the key range into 4*parallelism chunks; when the highest key is the last
// key of the universe and the grid overshoots, a chunk start beyond it is truncated (uint16 / uint32) and
// wraps to a small key: that chunk covers the whole range again and every container is appended twice.
func TestD22_ParOrChunkStartWraps(t *testing.T) {
	a := roaring.BitmapOf((0xFFFF-5)<<16 | 1)
	b := roaring.BitmapOf(0xFFFFFFFF)
	want := roaring.Or(a, b)
	for _, par := range []int{1, 2, 3, 4} {
		got := roaring.ParOr(par, a, b)
		if !got.Equals(want) || got.GetCardinality() != 2 {
			t.Fatalf("ParOr(%d): cardinality %d, values %v; want %v", par, got.GetCardinality(), got.ToArray(), want.ToArray())
		}
	}
	a64, b64 := roaring64.New(), roaring64.New()
	a64.Add((0xFFFFFFFF - 5) << 32)
	b64.Add(0xFFFFFFFFFFFFFFFF)
	want64 := roaring64.Or(a64, b64)
	for _, par := range []int{1, 2, 3, 4} {
		got := roaring64.ParOr(par, a64, b64)
		if !got.Equals(want64) || got.GetCardinality() != 2 {
			t.Fatalf("roaring64.ParOr(%d): cardinality %d, values %v", par, got.GetCardinality(), got.ToArray())
		}
	}
}

// #23 C15: the error tests on safeMaximum / safeMinimum in NextAbsentValue / PreviousAbsentValue were
// inverted: a walk that reached the upper (lower) edge of the last (first) chunk always returned -1.
func TestD23_AbsentValueAtTheEdgeOfTheLastChunk(t *testing.T) {
	if got := roaring.BitmapOf(65535).NextAbsentValue(65535); got != 65536 {
		t.Fatalf("NextAbsentValue(65535) on {65535} = %d, want 65536", got)
	}
	full := roaring.New()
	full.AddRange(0, 65536)
	if got := full.NextAbsentValue(0); got != 65536 {
		t.Fatalf("NextAbsentValue(0) on [0,65536) = %d, want 65536", got)
	}
	top := roaring.New()
	top.AddRange(0xFFFF0000, 0x100000000)
	if got := top.NextAbsentValue(0xFFFF0005); got != -1 {
		t.Fatalf("NextAbsentValue inside the full last chunk of the universe = %d, want -1", got)
	}
	second := roaring.New()
	second.AddRange(65536, 65536+100)
	if got := second.PreviousAbsentValue(65536 + 50); got != 65535 {
		t.Fatalf("PreviousAbsentValue(65586) on [65536,65636) = %d, want 65535", got)
	}
	zero := roaring.New()
	zero.AddRange(0, 100)
	if got := zero.PreviousAbsentValue(50); got != -1 {
		t.Fatalf("PreviousAbsentValue(50) on [0,100) = %d, want -1", got)
	}
}

// #24 C17: roaring64 in-place Xor had no rb == x2 guard: b.Xor(b) with two or more buckets ran off the end
// of the table it was shrinking.
func TestD24_Xor64WithItself(t *testing.T) {
	b := roaring64.BitmapOf(1, 1<<32, 2<<32)
	b.Xor(b)
	if !b.IsEmpty() {
		t.Fatalf("b.Xor(b) = %v, want the empty bitmap", b.ToArray())
	}
}

// #25 C19: ClearValues with the index's own existence bitmap as the found-set must clear the planes too.
func TestD25_ClearValuesWithOwnExistenceBitmap(t *testing.T) {
	b := roaring64.NewDefaultBSI()
	for i := 0; i < 3000; i++ {
		b.SetValue(uint64(i*7), 1000)
	}
	b.ClearValues(b.GetExistenceBitmap())
	if b.GetCardinality() != 0 {
		t.Fatalf("existence bitmap not cleared")
	}
	b.Increment(roaring64.BitmapOf(7))
	if v, ok := b.GetValue(7); !ok || v != 1 {
		t.Fatalf("after clearing all values, Increment of column 7 gives %d,%v; want 1,true (stale plane bits survived)", v, ok)
	}
}

// Known finding (not repaired), C06: a conformant stream with a run cut in three is adopted verbatim.
// Expected to FAIL on the current tree.
func TestK26_SplitRunsAdoptedVerbatim(t *testing.T) {
	// cookie 12347 | 1 chunk, run flag set | key 0, card-1 = 14 | 3 runs: (0,4) (5,4) (10,4) = {0..14}
	stream := []byte{0x3b, 0x30, 0x00, 0x00, 0x01, 0x00, 0x00, 0x0e, 0x00, 0x03, 0x00,
		0x00, 0x00, 0x04, 0x00, 0x05, 0x00, 0x04, 0x00, 0x0a, 0x00, 0x04, 0x00}
	got := roaring.New()
	if _, err := got.ReadFrom(bytes.NewReader(stream)); err != nil {
		t.Fatal(err)
	}
	want := rangeBM(0, 15)
	want.RunOptimize()
	if got.GetCardinality() != 15 {
		t.Fatalf("cardinality %d", got.GetCardinality())
	}
	if !got.Equals(want) {
		t.Errorf("the decoded {0..14} is not Equals to {0..14} built with AddRange")
	}
	func() {
		defer func() {
			if r := recover(); r != nil {
				t.Errorf("Flip(20,22) on the decoded bitmap panics: %v", r)
			}
		}()
		got.Flip(20, 22)
	}()
}

// #27 C08: CloneCopyOnWriteContainers on a roaring64 bitmap made by FromUnsafeBytes must detach it from the buffer.
func TestD27_CloneCopyOnWriteContainers64Detaches(t *testing.T) {
	orig := roaring64.New()
	orig.AddMany([]uint64{1, 2, 3, 1<<32 | 7})
	orig.AddRange(100000, 110000)
	data, err := orig.ToBytes()
	if err != nil {
		t.Fatal(err)
	}
	z := roaring64.New()
	if _, err := z.FromUnsafeBytes(data); err != nil {
		t.Fatal(err)
	}
	z.CloneCopyOnWriteContainers()
	for i := range data {
		data[i] = 0xFF
	}
	if !z.Equals(orig) {
		t.Fatalf("the bitmap still reads the input buffer after CloneCopyOnWriteContainers: cardinality %d, want %d", z.GetCardinality(), orig.GetCardinality())
	}
}

// #28 C19: the 32-bit BSI.ParOr must not depend on the order of operands of different widths.
func TestD28_BSI32ParOrWideBeforeNarrow(t *testing.T) {
	narrow := bsi32.NewDefaultBSI()
	narrow.SetValue(1, 1)
	wide := bsi32.NewDefaultBSI()
	wide.SetValue(2, 1000)
	b := bsi32.NewDefaultBSI()
	b.ParOr(0, wide, narrow)
	if v, ok := b.GetValue(2); !ok || v != 1000 {
		t.Fatalf("ParOr(0, wide, narrow): column 2 holds %d,%v, want 1000", v, ok)
	}
}

// #29 C19: the 64-bit BSI.ParOr with operands of different widths: no panic, negative values keep their sign.
func TestD29_BSI64ParOrUnequalWidths(t *testing.T) {
	narrow := roaring64.NewDefaultBSI()
	narrow.SetValue(1, -1)
	wide := roaring64.NewDefaultBSI()
	wide.SetValue(2, 1000)
	b := roaring64.NewDefaultBSI()
	b.RunOptimize()
	func() {
		defer func() {
			if r := recover(); r != nil {
				t.Fatalf("ParOr panicked: %v", r)
			}
		}()
		b.ParOr(0, narrow, wide)
	}()
	if v, ok := b.GetValue(1); !ok || v != -1 {
		t.Fatalf("column 1 holds %d,%v, want -1", v, ok)
	}
	if v, ok := b.GetValue(2); !ok || v != 1000 {
		t.Fatalf("column 2 holds %d,%v, want 1000", v, ok)
	}
}

// #30 C04/C15: the word scans of the bitmap container must not report positions that are set.
func TestD30_UnsetScanInsideABitmapChunk(t *testing.T) {
	b := roaring.New()
	for v := uint32(0); v < 20000; v += 2 {
		b.Add(v)
	}
	b.AddRange(60, 70) // bits 60..69 set, straddling a word edge
	it := b.UnsetIterator(62, 72)
	var got []uint32
	for it.HasNext() {
		got = append(got, it.Next())
	}
	if len(got) != 1 || got[0] != 71 {
		t.Errorf("UnsetIterator(62,72) = %v, want [71]", got)
	}
	if v := b.NextAbsentValue(61); v != 71 {
		t.Errorf("NextAbsentValue(61) = %d, want 71", v)
	}
	if v := b.PreviousAbsentValue(66); v != 59 {
		t.Errorf("PreviousAbsentValue(66) = %d, want 59", v)
	}
}

// #31 C15: NextAbsentValue/PreviousAbsentValue in a chunk other than the first keep the chunk key,
// and walk into the adjacent chunk.
func TestD31_AbsentValueKeepsTheChunkKey(t *testing.T) {
	b := roaring.BitmapOf(65541)
	if v := b.NextAbsentValue(65541); v != 65542 {
		t.Errorf("NextAbsentValue(65541) on {65541} = %d, want 65542", v)
	}
	if v := b.PreviousAbsentValue(65541); v != 65540 {
		t.Errorf("PreviousAbsentValue(65541) on {65541} = %d, want 65540", v)
	}
	c := rangeBM(0, 65537) // chunk 0 full, 65536 present
	if v := c.NextAbsentValue(5); v != 65537 {
		t.Errorf("NextAbsentValue(5) on [0,65537) = %d, want 65537", v)
	}
}

// #32 C02: a range that starts at or beyond 2^32 is empty: RemoveRange must leave the bitmap alone.
func TestD32_RemoveRangeBeyondTheUniverse(t *testing.T) {
	b := roaring.BitmapOf(1, 2, 3, 1<<20, 0xFFFFFFFF)
	b.RemoveRange(1<<32, 1<<32+1)
	if b.GetCardinality() != 5 {
		t.Fatalf("RemoveRange(2^32, 2^32+1) left %d of 5 values", b.GetCardinality())
	}
	b.RemoveRange(1<<32+3, 1<<32+10)
	if b.GetCardinality() != 5 {
		t.Fatalf("RemoveRange(2^32+3, 2^32+10) left %d of 5 values", b.GetCardinality())
	}
}

// #33 C03: CardinalityInRange of a range beyond 2^32 is 0.
func TestD33_CardinalityInRangeBeyondTheUniverse(t *testing.T) {
	b := roaring.BitmapOf(1, 2, 3, 1<<20, 0xFFFFFFFF)
	if n := b.CardinalityInRange(1<<32, 1<<32+5); n != 0 {
		t.Fatalf("CardinalityInRange(2^32, 2^32+5) = %d, want 0", n)
	}
	if n := b.CardinalityInRange(1<<32+2, 1<<33); n != 0 {
		t.Fatalf("CardinalityInRange(2^32+2, 2^33) = %d, want 0", n)
	}
}

// #34 C13: Freeze / FrozenView of the empty bitmap must not convert a pointer into a 4-byte buffer
// to *uint64. Only visible with checkptr: run this test with -race (it passes vacuously without).
func TestD34_FreezeEmptyUnderCheckptr(t *testing.T) {
	block := make([]byte, 16)
	buf := block[12:16:16]
	if _, err := roaring.New().FreezeTo(buf); err != nil {
		t.Fatal(err)
	}
	v := roaring.New()
	if err := v.FrozenView(buf); err != nil {
		t.Fatal(err)
	}
	if !v.IsEmpty() {
		t.Fatal("view of the frozen empty bitmap is not empty")
	}
}

// #35 C20: SumBigValues must be exact when a plane's weight does not fit in 64 bits.
func TestD35_SumBigValuesBeyond64Bits(t *testing.T) {
	b := roaring64.NewDefaultBSI()
	big70 := new(big.Int).Lsh(big.NewInt(1), 70)
	b.SetBigValue(1, big70)
	b.SetBigValue(2, big.NewInt(5))
	want := new(big.Int).Add(big70, big.NewInt(5))
	if got, n := b.SumBigValues(nil); n != 2 || got.Cmp(want) != 0 {
		t.Errorf("SumBigValues = %v (count %d), want %v", got, n, want)
	}
	c := roaring64.NewDefaultBSI()
	c.SetValue(1, 1<<62)
	c.SetValue(2, 1<<62)
	want = new(big.Int).Lsh(big.NewInt(1), 63)
	if got, _ := c.SumBigValues(nil); got.Cmp(want) != 0 {
		t.Errorf("SumBigValues of 2^62+2^62 = %v, want %v", got, want)
	}
	d := roaring64.NewDefaultBSI()
	d.SetBigValue(1, new(big.Int).Neg(big70))
	if got, _ := d.SumBigValues(nil); got.Cmp(new(big.Int).Neg(big70)) != 0 {
		t.Errorf("SumBigValues of -2^70 = %v", got)
	}
}

// #36 C16: ToDense on 32-bit targets. Fails only when run with GOARCH=386 (or arm) on the unrepaired tree.
func TestD36_ToDenseOn32BitTargets(t *testing.T) {
	defer func() {
		if e := recover(); e != nil {
			t.Fatalf("ToDense panicked: %v", e)
		}
	}()
	bm := roaring.BitmapOf(1, 1<<31+5, 0xFFFFFFFF)
	bm.AddRange(1<<31+100000, 1<<31+300000)
	bm.AddRange(3<<30, 3<<30+70000)
	bm.RunOptimize()
	if !roaring.FromDense(bm.ToDense(), true).Equals(bm) {
		t.Fatal("dense round trip differs")
	}
}

// #37 C19: b.Add(b) doubles every value and returns.
func TestD37_BSIAddToItself(t *testing.T) {
	b := roaring64.NewDefaultBSI()
	b.SetValue(1, 3)
	b.SetValue(2, 5)
	done := make(chan struct{})
	go func() { b.Add(b); close(done) }()
	select {
	case <-done:
	case <-time.After(3 * time.Second):
		t.Fatal("roaring64: b.Add(b) does not return")
	}
	if v, _ := b.GetValue(1); v != 6 {
		t.Errorf("roaring64: column 1 = %d, want 6", v)
	}
	c := bsi32.NewDefaultBSI()
	c.SetValue(1, 3)
	c.SetValue(2, 5)
	done2 := make(chan struct{})
	go func() { c.Add(c); close(done2) }()
	select {
	case <-done2:
	case <-time.After(3 * time.Second):
		t.Fatal("BitSliceIndexing: b.Add(b) does not return")
	}
	if v, _ := c.GetValue(2); v != 10 {
		t.Errorf("BitSliceIndexing: column 2 = %d, want 10", v)
	}
}

// #38 C10: FrozenView of a footer that announces 2^32 bytes of payload and carries none.
// Shows the defect only when run with GOARCH=386 (int of 32 bits) on the unrepaired tree.
func TestD38_FrozenViewTotalsOverflowInt(t *testing.T) {
	const n = 32768
	buf := make([]byte, 0, 5*n+4)
	for i := 0; i < n; i++ { // keys
		buf = append(buf, byte(i), byte(i>>8))
	}
	for i := 0; i < n; i++ { // counts: cardinality-1 = 65535
		buf = append(buf, 0xFF, 0xFF)
	}
	for i := 0; i < n; i++ { // type code 2 = array container
		buf = append(buf, 2)
	}
	h := uint32(13766 | n<<15)
	buf = append(buf, byte(h), byte(h>>8), byte(h>>16), byte(h>>24))
	defer func() {
		if r := recover(); r != nil {
			t.Fatalf("FrozenView panicked instead of returning an error: %v", r)
		}
	}()
	if err := roaring.New().FrozenView(buf); err == nil {
		t.Fatal("FrozenView accepted a footer whose payload is missing")
	}
}

// #39 C14: the documented bound holds for cardinalities from 2^31 on also where int has 32 bits.
// Shows the defect only when run with GOARCH=386 on the unrepaired tree.
func TestD39_BoundSerializedSizeOn32BitTargets(t *testing.T) {
	full := roaring.New()
	full.AddRange(0, 1<<32)
	size := full.GetSerializedSizeInBytes()
	if bound := roaring.BoundSerializedSizeInBytes(1<<32, 1<<32); bound < size {
		t.Fatalf("BoundSerializedSizeInBytes(2^32, 2^32) = %d, but the full bitmap serializes to %d bytes", bound, size)
	}
	if b1, b2 := roaring.BoundSerializedSizeInBytes(1<<31, 1<<32), roaring.BoundSerializedSizeInBytes(1<<31-1, 1<<32); b1 < b2 {
		t.Fatalf("the bound for 2^31 values (%d) is below the bound for 2^31-1 values (%d)", b1, b2)
	}
}
