#!/bin/sh
# usage: check.sh <property id> [quick|thorough]
# Decides the structural clauses claimed for one property by static analysis of /repo's
# current working tree (nothing from /repo is executed). Rebuilds the checker when its
# sources are newer than the binary.
V=/verif
export GOFLAGS=-mod=mod GOPROXY=off GOSUMDB=off GOTOOLCHAIN=local GOWORK=off
export PATH=/opt/veriftools/go1.26.8/bin:$PATH
if [ ! -x $V/bin/rbverify ] || [ -n "$(find $V/checker -name '*.go' -newer $V/bin/rbverify 2>/dev/null | head -1)" ]; then
  (cd $V/checker && go build -o $V/bin/rbverify .) || { echo "checker build failed"; exit 2; }
fi
exec $V/bin/rbverify -property "$1" -tier "${2:-${VERIF_TIER:-quick}}"
