#!/usr/bin/env python3
# Prints the markdown table of /verif/seeded (meta.json + detected.json) and, with -w, splices it into DESIGN.md
# between the markers <!-- SEEDTABLE --> and <!-- /SEEDTABLE -->.
import json, glob, os, sys, re
rows = []
caught = other = none = 0
for d in sorted(glob.glob('/verif/seeded/*/')):
    mid = os.path.basename(d.rstrip('/'))
    try:
        meta = json.load(open(d + 'meta.json')); det = json.load(open(d + 'detected.json'))
    except Exception:
        continue
    summ = (meta.get('summary') or '').replace('|', '/').replace('\n', ' ')
    summ = re.split(r'(?<=[a-z\)])[:.] ', summ)[0][:150]
    rules = ' '.join(det.get('rules_reporting', []))
    if det.get('own_check_exit') == 1:
        verdict = 'caught'; caught += 1
    elif rules:
        verdict = 'other rule only'; other += 1
    else:
        verdict = 'not caught'; none += 1
    rows.append(f"| {mid} | {summ} | {verdict} | {rules or '–'} |")
out = "| change | what it does (first clause of meta.json) | property's own quick check | rules reporting |\n|---|---|---|---|\n" + "\n".join(rows)
out += f"\n\nTotals: {caught} caught by the property's own check, {other} by another rule only, {none} by no rule ({caught+other+none} changes)."
if len(sys.argv) > 1 and sys.argv[1] == '-w':
    s = open('/verif/DESIGN.md').read()
    a, b = '<!-- SEEDTABLE -->', '<!-- /SEEDTABLE -->'
    i, j = s.index(a), s.index(b)
    s = s[:i + len(a)] + "\n" + out + "\n" + s[j:]
    open('/verif/DESIGN.md', 'w').write(s)
else:
    print(out)
