#!/bin/bash
# usage: seedmatrix.sh [seeded-dir ...]  — for each /verif/seeded/<id> applies patch.diff to /repo, runs the
# quick check of the property it breaks and (for information) every rule, then reverts. Writes detected.json next to meta.json.
cd /repo || exit 2
[ -n "$(git status --porcelain)" ] && { echo "/repo not clean"; exit 2; }
dirs=("$@"); [ ${#dirs[@]} -eq 0 ] && dirs=(/verif/seeded/*/)
for d in "${dirs[@]}"; do
  d=${d%/}
  [ -f $d/patch.diff ] || continue
  prop=$(python3 -c "import json;print(json.load(open('$d/meta.json'))['property'])")
  if ! git apply --check $d/patch.diff 2>/dev/null; then echo "$(basename $d): PATCH DOES NOT APPLY"; continue; fi
  git apply $d/patch.diff
  out=$(/verif/check.sh $prop quick 2>&1); rc=$?
  all=$(/verif/bin/rbverify -all 2>&1)
  git checkout -q -- . ; git clean -fdq
  rules=$(echo "$all" | grep "  FINDING" | grep -v "V2|(\*roaring.bitmapContainer).validate|rejects cardinality == 4096\|PC1|(\*roaring64.BSI).MarshalBinary\|L8|(\*roaring.roaringArray).readFrom|run list taken from the input#1" | sed -E 's/^  FINDING ([^|]+)\|.*/\1/' | sort -u | tr '\n' ' ')
  viol=$(echo "$out" | grep -c "^VIOLATION")
  python3 - "$d" "$prop" "$rc" "$viol" "$rules" <<'PY'
import json,sys
d,prop,rc,viol,rules=sys.argv[1:6]
json.dump({"property":prop,"own_check_exit":int(rc),"own_check_violation_lines":int(viol),"rules_reporting":rules.split()},open(d+"/detected.json","w"),indent=1)
PY
  echo "$(basename $d): own-check exit=$rc violations=$viol rules=[$rules]"
done
# restore the evidence files of the unchanged tree
for p in $(ls /verif/seeded | sed -E 's/-.*//' | sort -u); do /verif/check.sh $p quick >/dev/null 2>&1; done
