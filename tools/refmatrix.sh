#!/bin/bash
# usage: refmatrix.sh <dir with patch.diff> ...  — behaviour-preserving edits: applies each to /repo, runs every rule, reverts.
# Any finding other than the listed known findings is a false alarm of the checker (or the edit is not behaviour-preserving).
cd /repo || exit 2
[ -n "$(git status --porcelain)" ] && { echo "/repo not clean"; exit 2; }
for d in "$@"; do
  d=${d%/}
  [ -f $d/patch.diff ] || continue
  if ! git apply --check $d/patch.diff 2>/dev/null; then echo "$d: PATCH DOES NOT APPLY"; continue; fi
  git apply $d/patch.diff
  all=$(/verif/bin/rbverify -all 2>&1)
  git checkout -q -- . ; git clean -fdq
  f=$(echo "$all" | grep "  FINDING" | grep -v "V2|(\*roaring.bitmapContainer).validate|rejects cardinality == 4096\|PC1|(\*roaring64.BSI).MarshalBinary\|L8|(\*roaring.roaringArray).readFrom|run list taken from the input#1")
  n=$(echo "$f" | grep -c "FINDING")
  echo "== $d : alarms=$n"
  echo "$f" | cut -c1-330
  echo "$all" | grep "LOAD ERROR\|^panic:\|^goroutine " | cut -c1-300
done
