#!/bin/bash
# usage: mutrun.sh <dir with patch.diff> ...   — applies each patch to /repo, runs every rule, reverts.
# Prints, per mutant, the rules that report a finding. /repo must be clean.
cd /repo || exit 2
if [ -n "$(git status --porcelain)" ]; then echo "/repo not clean"; exit 2; fi
for d in "$@"; do
  p=$d/patch.diff
  [ -f "$p" ] || continue
  if ! git apply --check "$p" 2>/dev/null; then echo "$d: PATCH DOES NOT APPLY"; continue; fi
  git apply "$p"
  out=$(/verif/bin/rbverify -all 2>&1)
  git checkout -q -- . ; git clean -fdq
  n=$(echo "$out" | grep -c "  FINDING")
  echo "== $d : findings=$n"
  echo "$out" | grep "  FINDING" | cut -c1-260
  echo "$out" | grep -i "LOAD ERROR" | cut -c1-300
done
