#!/bin/bash
# usage: baseline.sh [repo-dir]   — runs the pinned test suite (command from /root/.vp/BASELINE.json)
# against repo-dir (default /repo) and reports which of the 1088 pinned tests did not pass.
# Exit 0 iff every pinned test passed.
DIR=${1:-/repo}
OUT=$(mktemp /tmp/baseline.XXXXXX.json)
export GOFLAGS=-mod=mod GOPROXY=off GOSUMDB=off GOTOOLCHAIN=local GOWORK=off
export PATH=/opt/veriftools/go1.26.8/bin:$PATH
(cd "$DIR" && go test -json -vet=off -count=1 -timeout 25m ./... > "$OUT" 2>/dev/null)
python3 - "$OUT" <<'PY'
import json,sys
passed=set(); failed=set()
for l in open(sys.argv[1]):
    try: e=json.loads(l)
    except Exception: continue
    if e.get('Test') and e.get('Action') in ('pass','fail'):
        k=e['Package']+'::'+e['Test']
        (passed if e['Action']=='pass' else failed).add(k)
b=json.load(open('/root/.vp/BASELINE.json'))
sp=set(b['stable_pass'])
missing=sorted(sp-passed)
print("pinned=%d passed_pinned=%d not_passed=%d (other failing tests: %d)"%(len(sp),len(sp&passed),len(missing),len(failed-sp)))
for m in missing[:40]: print("  NOT PASSED:",m, "(FAILED)" if m in failed else "(not run)")
sys.exit(1 if missing else 0)
PY
rc=$?
rm -f "$OUT"
exit $rc
