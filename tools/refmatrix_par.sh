#!/bin/bash
# usage: refmatrix_par.sh BIN "R1,R2" SCRATCH-WORKTREE dirs...  — runs the listed rules (empty = all) of BIN on a scratch worktree of /repo
# (created if missing, never /repo itself) with each dirs/patch.diff applied; prints the number of findings and load errors per patch.
# Several instances can run side by side on different scratch worktrees; never share one.
BIN=$1; RULES=$2; WT=$3; shift 3
[ -d $WT ] || git -C /repo worktree add -q --detach $WT HEAD
for d in "$@"; do
  p=$d/patch.diff
  git -C $WT reset -q; git -C $WT checkout -q -- . ; git -C $WT clean -fdq
  if ! git -C $WT apply "$p" 2>/dev/null; then echo "== $(basename $d): NOAPPLY"; continue; fi
  out=$(RB_REPO=$WT RB_ONLY=$RULES $BIN -all 2>&1)
  echo "== $(basename $d): $(echo "$out" | grep -c '  FINDING') $(echo "$out" | grep -c 'LOAD ERROR\|^panic')"
  echo "$out" | grep "  FINDING\|LOAD ERROR\|^panic" | cut -c1-330
done
git -C $WT reset -q; git -C $WT checkout -q -- . ; git -C $WT clean -fdq
