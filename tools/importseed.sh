#!/bin/bash
# usage: importseed.sh <prop> <mN> <round-tag>  — copies a sub-agent deliverable that /tmp/sv/verify.sh confirmed into /verif/seeded/<prop>-<tag><mN>/
P=$1; M=$2; TAG=$3
SRC=/tmp/mut/$P/out/$M; RES=/tmp/sv/result-$P-$M.json
DST=/verif/seeded/$P-$TAG$M
[ -f $RES ] || { echo "$P $M: no verification result"; exit 1; }
python3 - "$SRC" "$RES" "$DST" "$P" <<'PY'
import json,sys,os,shutil,re
src,res,dst,prop=sys.argv[1:5]
r=json.load(open(res))
if not (r['patch_applies'] and r['baseline_passes_with_patch'] and r['demo_fails_with_patch'] and r['demo_passes_without_patch']):
    print(prop, os.path.basename(src), 'NOT CONFIRMED', r); sys.exit(1)
os.makedirs(dst,exist_ok=True)
shutil.copy(src+'/patch.diff',dst+'/patch.diff')
for f in os.listdir(src):
    if f.endswith('_test.go'): shutil.copy(src+'/'+f,dst+'/'+f)
if os.path.exists(src+'/go.mod'):
    g=open(src+'/go.mod').read()
    g=re.sub(r'=> /tmp/mut/C\d\d/wt','=> /repo',g)
    open(dst+'/go.mod','w').write(g)
m=json.load(open(src+'/meta.json'))
m['property']=prop
m['confirmed_by_me']={'patch_applies_to_repo_head':True,'pinned_suite_passes_with_patch':True,'demo_fails_with_patch':True,'demo_passes_without_patch':True,
  'how':'scratch worktree of /repo HEAD under /tmp/sv; /verif/tools/baseline.sh on the patched worktree; go test of the demonstration before and after git apply'}
m['how_to_run_demo']='cp /repo/go.sum . && go test -count=1 ./... in this directory after `git -C /repo apply patch.diff` (revert with `git -C /repo checkout -- .`)'
json.dump(m,open(dst+'/meta.json','w'),indent=1)
print('imported',dst)
PY
