#!/bin/bash
# usage: seedmatrix_par.sh WORKTREE [seeded-dir ...] — like seedmatrix.sh but on a scratch worktree of /repo
# (created if missing; /repo itself is not touched), so several instances can run side by side:
#   ls -d /verif/seeded/* | split -n l/6 - /tmp/part_ ; for p in /tmp/part_*; do tools/seedmatrix_par.sh /tmp/smwt_$(basename $p) $(cat $p) & done
# Evidence of these runs goes to a scratch directory (RB_VERIF), not to /verif/evidence.
WT=$1; shift
BIN=${RB_BIN:-/verif/bin/rbverify}
[ -d $WT ] || git -C /repo worktree add -q --detach $WT HEAD || exit 2
SCR=$WT.verif; mkdir -p $SCR/evidence; cp /verif/known_findings.json $SCR/
for d in "$@"; do
  d=${d%/}
  [ -f $d/patch.diff ] || continue
  prop=$(python3 -c "import json;print(json.load(open('$d/meta.json'))['property'])")
  git -C $WT reset -q; git -C $WT checkout -q -- . ; git -C $WT clean -fdq
  if ! git -C $WT apply $d/patch.diff 2>/dev/null; then echo "$(basename $d): PATCH DOES NOT APPLY"; continue; fi
  out=$(RB_REPO=$WT RB_VERIF=$SCR $BIN -property $prop -tier quick 2>&1); rc=$?
  all=$(RB_REPO=$WT $BIN -all 2>&1)
  rules=$(echo "$all" | grep "  FINDING" | grep -v "V2|(\*roaring.bitmapContainer).validate|rejects cardinality == 4096\|PC1|(\*roaring64.BSI).MarshalBinary\|L8|(\*roaring.roaringArray).readFrom|run list taken from the input#1" | sed -E 's/^  FINDING ([^|]+)\|.*/\1/' | sort -u | tr '\n' ' ')
  viol=$(echo "$out" | grep -c "^VIOLATION")
  python3 - "$d" "$prop" "$rc" "$viol" "$rules" <<'PY'
import json,sys
d,prop,rc,viol,rules=sys.argv[1:6]
json.dump({"property":prop,"own_check_exit":int(rc),"own_check_violation_lines":int(viol),"rules_reporting":rules.split()},open(d+"/detected.json","w"),indent=1)
PY
  echo "$(basename $d): own-check exit=$rc violations=$viol rules=[$rules]"
done
git -C $WT reset -q; git -C $WT checkout -q -- . ; git -C $WT clean -fdq
