#!/bin/sh
# validates MANIFEST.json and every evidence file against the schemas in /root/.vp
exec python3-vt - <<'PY'
import json,glob,sys,jsonschema
ok=True
try:
    jsonschema.validate(json.load(open('/verif/MANIFEST.json')),json.load(open('/root/.vp/MANIFEST.schema.json')))
    print('MANIFEST ok')
except Exception as e:
    ok=False; print('MANIFEST INVALID',str(e)[:300])
es=json.load(open('/root/.vp/EVIDENCE.schema.json'))
for f in sorted(glob.glob('/verif/evidence/C*.json')):
    try:
        jsonschema.validate(json.load(open(f)),es)
    except Exception as e:
        ok=False; print(f,'INVALID',str(e)[:300])
print('evidence files checked:',len(glob.glob('/verif/evidence/C*.json')))
sys.exit(0 if ok else 1)
PY
